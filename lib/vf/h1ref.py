"""Independent RFC 9112 reference parser for HTTP/1 byte streams (oracle for C01 / C02).

Written for the harness from the RFC text; it shares no code with mitmproxy or h11 and imports neither.  It reads a
byte stream the way a strict recipient does and reports
  * the complete messages (start line, field list, body, framing kind), and
  * what is left after the last complete message: nothing ("clean"), an incomplete message ("partial"), or bytes a
    recipient has to treat as an unrecoverable framing / syntax error ("invalid", with a reason class).

RFC 9112 decisions implemented (section numbers of RFC 9112 unless noted):
  2.2   lines end in CRLF; `lenient_lf=True` additionally accepts a bare LF (the MAY of 2.2) and notes "bare_lf";
        empty lines before a start line are skipped (note "leading_crlf"); a bare CR inside a field value is replaced
        by SP (note "bare_cr").
  3     request-line = method SP request-target SP HTTP-version (lenient mode: any run of SP / HTAB separates).
  4     status-line = HTTP-version SP 3DIGIT SP [reason]
  5.1   field-line = field-name ":" OWS field-value OWS; field-name is a token, no whitespace before the colon
        -> otherwise "bad_field_name"; a line without colon -> "bad_field_line".
  5.2   obs-fold is unfolded to one SP (note "obs_fold"); a continuation line before any field -> "bad_field_line".
  6.1   Transfer-Encoding: list of tokens; in an HTTP/1.0 message -> "te_http10" (faulty framing);
        chunked applied more than once, empty or non-token element -> "te_malformed";
        request whose final coding is not chunked -> "te_not_chunked_final".
  6.3   1. responses to HEAD, 1xx, 204, 304: no body          3. TE: chunked final -> chunked; response else -> EOF
        TE together with Content-Length -> "cl_te" (ought to be handled as an error)
        4./5. Content-Length: 1*DIGIT, list members / several fields must all be equal -> else "cl_invalid"/"cl_differ"
        6. request without either: no body                    7. response without either: until close
  7.1   chunk-size 1*HEXDIG [;ext] CRLF data CRLF ... last-chunk trailer-section CRLF; anything else -> "bad_chunk".
Interim (1xx) responses are reported as messages of their own (flag interim); the request a response answers
advances only on a final response.  2xx to CONNECT and 101 switch to a tunnel: parsing stops there ("tunnel").
"""
from __future__ import annotations

from dataclasses import dataclass, field

_TCHAR = frozenset(b"!#$%&'*+-.^_`|~0123456789abcdefghijklmnopqrstuvwxyzABCDEFGHIJKLMNOPQRSTUVWXYZ")
_DIGITS = frozenset(b"0123456789")
_HEX = frozenset(b"0123456789abcdefABCDEF")


def is_token(b: bytes) -> bool:
    return len(b) > 0 and all(c in _TCHAR for c in b)


@dataclass
class Msg:
    kind: str  # "request" | "response"
    method: bytes = b""
    target: bytes = b""
    version: bytes = b""
    status: int = 0
    reason: bytes = b""
    fields: list = field(default_factory=list)  # [(name, value)] value trimmed / unfolded
    body: bytes = b""
    framing: str = "none"  # none | cl | chunked | eof
    notes: list = field(default_factory=list)
    interim: bool = False
    start: int = 0  # offset of the first byte (after skipped empty lines)
    head_end: int = 0  # offset just after the blank line
    end: int = 0  # offset just after the message
    for_method: bytes = b""  # responses: method of the request it was read in the context of

    def get(self, name: bytes) -> list:
        n = name.lower()
        return [v for k, v in self.fields if k.lower() == n]

    def int_field(self, name: bytes) -> int:
        for v in self.get(name):
            if v and all(c in _DIGITS for c in v) and len(v) < 9:
                return int(v)
        return 0


@dataclass
class Result:
    msgs: list
    tail: str  # clean | partial | invalid | tunnel
    why: str = ""  # reason class when tail == invalid; "head"/"body" when partial
    consumed: int = 0  # bytes belonging to complete messages
    notes: list = field(default_factory=list)  # notes of the incomplete / invalid tail message


class _Invalid(Exception):
    def __init__(self, why):
        self.why = why


class _Partial(Exception):
    def __init__(self, where):
        self.where = where


def _read_line(data: bytes, pos: int, lenient_lf: bool, notes: list):
    """-> (line without terminator, new pos).  Raises _Partial when no terminator is in sight."""
    i = data.find(b"\n", pos)
    if i < 0:
        raise _Partial("head")
    if i > pos and data[i - 1:i] == b"\r":
        return data[pos:i - 1], i + 1
    if lenient_lf:
        if "bare_lf" not in notes:
            notes.append("bare_lf")
        return data[pos:i], i + 1
    raise _Invalid("bare_lf")


def _trim_ows(v: bytes) -> bytes:
    return v.strip(b" \t")


def norm_value(v: bytes) -> bytes:
    """Canonical form of a field value for comparison: unfold obs-fold, bare CR -> SP, trim OWS."""
    out = bytearray()
    i, n = 0, len(v)
    while i < n:
        if v[i:i + 2] == b"\r\n" and i + 2 < n and v[i + 2] in b" \t":
            while out and out[-1] in b" \t":
                out.pop()
            i += 2
            while i < n and v[i] in b" \t":
                i += 1
            out += b" "
            continue
        c = v[i]
        out.append(0x20 if c == 0x0D else c)
        i += 1
    return _trim_ows(bytes(out))


def _read_fields(data: bytes, pos: int, lenient_lf: bool, notes: list):
    fields: list = []
    while True:
        line, pos = _read_line(data, pos, lenient_lf, notes)
        if line == b"":
            return fields, pos
        if line[0] in b" \t":
            if not fields:
                raise _Invalid("bad_field_line")
            if "obs_fold" not in notes:
                notes.append("obs_fold")
            k, v = fields[-1]
            fields[-1] = (k, _trim_ows(v + b" " + _trim_ows(line)))
            continue
        c = line.find(b":")
        if c < 0:
            raise _Invalid("bad_field_line")
        name, value = line[:c], line[c + 1:]
        if not is_token(name):
            raise _Invalid("bad_field_name")
        if b"\r" in value:
            if "bare_cr" not in notes:
                notes.append("bare_cr")
            value = value.replace(b"\r", b" ")
        fields.append((name, _trim_ows(value)))


def _split_list(values: list) -> list:
    out = []
    for v in values:
        for e in v.split(b","):
            out.append(_trim_ows(e))
    return out


def _framing(m: Msg, role: str) -> tuple:
    """RFC 9112 6.3 -> ("none"|"cl"|"chunked"|"eof", n).  Raises _Invalid(reason)."""
    te = m.get(b"transfer-encoding")
    cl = m.get(b"content-length")
    bodiless = False
    if role == "response":
        if m.for_method.upper() == b"HEAD" or 100 <= m.status <= 199 or m.status in (204, 304):
            bodiless = True
    if bodiless:
        return "none", 0  # 6.3 rule 1: regardless of the header fields present
    if te:
        if m.version == b"HTTP/1.0":
            raise _Invalid("te_http10")
        if cl:
            raise _Invalid("cl_te")
        codings = _split_list(te)
        low = [c.lower() for c in codings]  # bytes.lower(): ASCII only
        if not codings or any(not is_token(c) for c in codings):
            raise _Invalid("te_malformed")
        if low.count(b"chunked") > 1:
            raise _Invalid("te_malformed")
        if bodiless:
            return "none", 0
        if low[-1] == b"chunked":
            return "chunked", 0
        if b"chunked" in low:
            raise _Invalid("te_malformed")  # chunked applied, but not last
        if role == "request":
            raise _Invalid("te_not_chunked_final")
        return "eof", 0
    if cl:
        vals = _split_list(cl)
        if any(v == b"" or any(c not in _DIGITS for c in v) for v in vals):
            if bodiless:
                return "none", 0
            raise _Invalid("cl_invalid")
        nums = {int(v) for v in vals}
        if len(nums) > 1:
            if bodiless:
                return "none", 0
            raise _Invalid("cl_differ")
        if len(vals) > 1:
            m.notes.append("cl_repeated")
        if bodiless:
            return "none", 0
        return "cl", nums.pop()
    if bodiless or role == "request":
        return "none", 0
    return "eof", 0


def _read_chunked(data: bytes, pos: int, notes: list):
    body = bytearray()
    while True:
        i = data.find(b"\r\n", pos)
        if i < 0:
            # a chunk-size line can be recognised as invalid early only by its characters
            seg = data[pos:]
            if b"\n" in seg:
                raise _Invalid("bad_chunk")
            raise _Partial("body")
        line = data[pos:i]
        semi = line.find(b";")
        size_s = line if semi < 0 else line[:semi]
        if semi >= 0 and "chunk_ext" not in notes:
            notes.append("chunk_ext")
        size_s = size_s.rstrip(b" \t") if semi >= 0 else size_s
        if not size_s or any(c not in _HEX for c in size_s) or len(size_s) > 16 or b"\n" in line or b"\r" in line:
            raise _Invalid("bad_chunk")
        size = int(size_s, 16)
        pos = i + 2
        if size == 0:
            # trailer section
            tnotes: list = []
            try:
                tf, pos = _read_fields(data, pos, False, tnotes)
            except _Partial:
                raise _Partial("body")
            except _Invalid:
                raise _Invalid("bad_chunk")
            if tf and "trailers" not in notes:
                notes.append("trailers")
            return bytes(body), pos
        if len(data) < pos + size + 2:
            avail = data[pos:pos + size + 2]
            if len(avail) > size and not b"\r\n".startswith(avail[size:]):
                raise _Invalid("bad_chunk")
            raise _Partial("body")
        body += data[pos:pos + size]
        if data[pos + size:pos + size + 2] != b"\r\n":
            raise _Invalid("bad_chunk")
        pos += size + 2


def _version_ok(v: bytes) -> bool:
    return len(v) == 8 and v[:5] == b"HTTP/" and v[5] in _DIGITS and v[6:7] == b"." and v[7] in _DIGITS


def parse_stream(data: bytes, role: str, *, methods=None, closed: bool = False, lenient: bool = False,
                 max_msgs: int = 1000) -> Result:
    """Read `data` as a sequence of HTTP/1 requests (role="request") or responses (role="response").
    methods: for responses, the methods of the requests they answer, in order (missing -> GET).
    closed: the sender closed the stream after `data` (ends a read-until-close body).
    lenient: recipient-side tolerances of 2.2 / 3 (bare LF line ends, whitespace runs in the start line)."""
    data = bytes(data)
    msgs: list = []
    pos = 0
    midx = 0  # index into methods (advances on final responses)
    methods = list(methods or [])
    while len(msgs) < max_msgs:
        notes: list = []
        try:
            # skip empty lines before the start line
            start = pos
            while True:
                if data[start:start + 2] == b"\r\n":
                    start += 2
                elif lenient and data[start:start + 1] == b"\n":
                    start += 1
                else:
                    break
                if "leading_crlf" not in notes:
                    notes.append("leading_crlf")
            if start >= len(data):
                return Result(msgs, "clean", consumed=pos)
            if data[start:] == b"\r":
                return Result(msgs, "partial", "head", pos, notes)
            m = Msg(kind=role, start=start)
            line, p = _read_line(data, start, lenient, notes)
            if role == "request":
                parts = line.split() if lenient else line.split(b" ")
                if lenient and any(c in line for c in (b"\r", b"\x0b", b"\x0c")):
                    raise _Invalid("bad_start_line")
                if len(parts) != 3 or not is_token(parts[0]) or not parts[1] or not _version_ok(parts[2]):
                    raise _Invalid("bad_start_line")
                if any(c <= 0x20 or c == 0x7F for c in parts[1]):
                    raise _Invalid("bad_start_line")
                m.method, m.target, m.version = parts
            else:
                parts = line.split(b" ", 2)
                if len(parts) < 2 or not _version_ok(parts[0]) or len(parts[1]) != 3 or any(
                        c not in _DIGITS for c in parts[1]):
                    raise _Invalid("bad_start_line")
                m.version, m.status = parts[0], int(parts[1])
                m.reason = parts[2] if len(parts) > 2 else b""
                m.for_method = methods[midx] if midx < len(methods) else b"GET"
                m.interim = 100 <= m.status <= 199 and m.status != 101
            m.fields, p = _read_fields(data, p, lenient, notes)
            m.head_end = p
            m.notes = notes
            kind, n = _framing(m, role)
            m.framing = kind
            if role == "response" and (m.status == 101 or (
                    200 <= m.status <= 299 and m.for_method.upper() == b"CONNECT")):
                m.end = p
                msgs.append(m)
                return Result(msgs, "tunnel", consumed=p)
            if kind == "none":
                m.end = p
            elif kind == "cl":
                if len(data) < p + n:
                    raise _Partial("body")
                m.body = data[p:p + n]
                m.end = p + n
            elif kind == "chunked":
                m.body, m.end = _read_chunked(data, p, notes)
            else:  # eof
                if not closed:
                    raise _Partial("body")
                m.body = data[p:]
                m.end = len(data)
            msgs.append(m)
            pos = m.end
            if role == "response" and not m.interim:
                midx += 1
        except _Partial as e:
            return Result(msgs, "partial", e.where, pos, notes)
        except _Invalid as e:
            return Result(msgs, "invalid", e.why, pos, notes)
    return Result(msgs, "partial", "limit", pos)


def norm_fields(fields) -> tuple:
    """Comparison form of a field list: names as sent, values normalised."""
    return tuple((bytes(k), norm_value(bytes(v))) for k, v in fields)
