"""Full-stack sans-io proxy simulation for properties about *where bytes go* (C08, C24).

mitmproxy side (the code under test, nothing replaced): the real top layer of a proxy mode
(mode_servers.ServerInstance.make(mode).make_top_layer), every layer it creates, and the real addons NextLayer,
TlsConfig, UpstreamAuth (plus Proxyserver/Core for their options), driven through vf.sansio.Driver.

Harness side (independent of mitmproxy): protocol peers that see only the bytes mitmproxy sends on each physical
connection and decode them with their own means: Python's `ssl` (MemoryBIO) terminates TLS, a small reference
HTTP/1 reader (RFC 9112 request heads + framing), the `h2` library as HTTP/2 server / client.  An upstream peer is
a tree of `Level`s: root (the TCP connection) -> [tls] -> http app -> [tunnel after CONNECT 2xx] -> [tls] -> app.
Every request head a peer reads is reported to `Sim.on_request` together with the route it physically took.
"""
from __future__ import annotations

import os
import re
import ssl
import tempfile
from dataclasses import dataclass, field
from pathlib import Path
from typing import Any, Callable

# ------------------------------------------------------------------------------------------------
# reference HTTP/1 reader (requests and responses), written for the harness

_TOKEN = r"[!#$%&'*+\-.^_`|~0-9A-Za-z]+"
_REQLINE = re.compile(rb"^(" + _TOKEN.encode() + rb") ([^ \r\n]+) HTTP/(1\.[01])$")
_STATUSLINE = re.compile(rb"^HTTP/(1\.[01]) (\d{3})(?: (.*))?$")
_FIELD = re.compile(rb"^(" + _TOKEN.encode() + rb"):[ \t]*(.*?)[ \t]*$")


@dataclass
class Head:
    method: str = ""
    target: str = ""
    version: str = ""
    status: int = 0
    fields: list = field(default_factory=list)  # [(lower-case name, value)]
    raw: bytes = b""

    def get(self, name: str, default: str | None = None):
        for k, v in self.fields:
            if k == name:
                return v
        return default

    def get_all(self, name: str):
        return [v for k, v in self.fields if k == name]


class RefHttp1:
    """Incremental reader for one direction of an HTTP/1 connection.  `feed` returns the message heads completed by
    the new bytes.  After a CONNECT request head (requests) / after a 2xx reply to CONNECT (responses, when told by
    `expect_connect`) the reader stops and leaves the remaining bytes in `self.buf` for the tunnel."""

    def __init__(self, responses: bool = False):
        self.responses = responses
        self.buf = bytearray()
        self.state = "head"  # head | body | chunk_size | chunk_data | chunk_crlf | trailers | eof_body | stopped | broken
        self.remaining = 0
        self.garbage = bytearray()
        self.expect_connect = False  # responses: the next response answers a CONNECT
        self.head_request_methods: list[str] = []  # responses: methods of outstanding requests (HEAD has no body)
        self.messages_done = 0

    def feed(self, data: bytes) -> list[Head]:
        self.buf += data
        out: list[Head] = []
        while True:
            if self.state in ("stopped",):
                return out
            if self.state == "broken":
                self.garbage += self.buf
                self.buf.clear()
                return out
            if self.state == "head":
                # tolerate leading empty lines (RFC 9112 2.2)
                while self.buf[:2] == b"\r\n":
                    del self.buf[:2]
                i = self.buf.find(b"\r\n\r\n")
                if i < 0:
                    return out
                raw = bytes(self.buf[: i + 4])
                del self.buf[: i + 4]
                h = self._parse_head(raw)
                if h is None:
                    self.state = "broken"
                    self.garbage += raw
                    continue
                out.append(h)
                self._after_head(h)
            elif self.state == "body":
                n = min(self.remaining, len(self.buf))
                del self.buf[:n]
                self.remaining -= n
                if self.remaining:
                    return out
                self._done()
            elif self.state == "chunk_size":
                i = self.buf.find(b"\r\n")
                if i < 0:
                    return out
                line = bytes(self.buf[:i]).split(b";")[0].strip()
                del self.buf[: i + 2]
                try:
                    self.remaining = int(line, 16)
                except ValueError:
                    self.state = "broken"
                    continue
                self.state = "chunk_data" if self.remaining else "trailers"
            elif self.state == "chunk_data":
                n = min(self.remaining, len(self.buf))
                del self.buf[:n]
                self.remaining -= n
                if self.remaining:
                    return out
                self.state = "chunk_crlf"
            elif self.state == "chunk_crlf":
                if len(self.buf) < 2:
                    return out
                del self.buf[:2]
                self.state = "chunk_size"
            elif self.state == "trailers":
                i = self.buf.find(b"\r\n")
                if i < 0:
                    return out
                line = bytes(self.buf[:i])
                del self.buf[: i + 2]
                if line == b"":
                    self._done()
            elif self.state == "eof_body":
                self.buf.clear()
                return out
            else:  # pragma: no cover
                raise AssertionError(self.state)

    def _done(self):
        self.messages_done += 1
        self.state = "head"

    def _parse_head(self, raw: bytes) -> Head | None:
        lines = raw[:-4].split(b"\r\n")
        h = Head(raw=raw)
        if self.responses:
            m = _STATUSLINE.match(lines[0])
            if not m:
                return None
            h.version, h.status = m.group(1).decode(), int(m.group(2))
        else:
            m = _REQLINE.match(lines[0])
            if not m:
                return None
            h.method, h.target, h.version = m.group(1).decode(), m.group(2).decode("latin-1"), m.group(3).decode()
        for ln in lines[1:]:
            m = _FIELD.match(ln)
            if not m:
                return None
            h.fields.append((m.group(1).decode().lower(), m.group(2).decode("latin-1")))
        return h

    def _after_head(self, h: Head):
        if self.responses:
            method = self.head_request_methods.pop(0) if self.head_request_methods else "GET"
            if method == "CONNECT" and 200 <= h.status < 300:
                self.state = "stopped"
                return
            if 100 <= h.status < 200 and h.status != 101:
                self.head_request_methods.insert(0, method)
                self.state = "head"
                return
            if method == "HEAD" or h.status in (204, 304):
                self._done()
                return
        else:
            if h.method == "CONNECT":
                self.state = "stopped"
                return
        te = ",".join(h.get_all("transfer-encoding")).lower()
        cl = h.get("content-length")
        if te and te.split(",")[-1].strip() == "chunked":
            self.state = "chunk_size"
        elif cl is not None and cl.strip().isdigit():
            self.remaining = int(cl)
            if self.remaining:
                self.state = "body"
            else:
                self._done()
        elif self.responses:
            self.state = "eof_body"
        else:
            self._done()

    def resume(self):
        """Continue reading messages after a CONNECT that was not answered with 2xx."""
        if self.state == "stopped":
            self.state = "head"


# ------------------------------------------------------------------------------------------------
# TLS ends (Python's ssl module, memory BIOs)


class TlsEnd:
    def __init__(self, sslctx: ssl.SSLContext, server_side: bool, server_hostname: str | None = None):
        self.inc, self.out = ssl.MemoryBIO(), ssl.MemoryBIO()
        self.obj = sslctx.wrap_bio(self.inc, self.out, server_side=server_side,
                                   server_hostname=None if server_side else server_hostname)
        self.done = False
        self.failed: str | None = None
        self.closed = False

    def feed(self, data: bytes) -> bytes:
        """ciphertext in -> plaintext out (handshake is advanced as a side effect; see take_out())."""
        if data:
            self.inc.write(data)
        if self.failed:
            return b""
        if not self.done:
            try:
                self.obj.do_handshake()
                self.done = True
            except ssl.SSLWantReadError:
                return b""
            except (ssl.SSLError, OSError) as e:
                self.failed = repr(e)
                return b""
        out = bytearray()
        while True:
            try:
                chunk = self.obj.read(65536)
            except ssl.SSLWantReadError:
                break
            except ssl.SSLZeroReturnError:
                self.closed = True
                break
            except (ssl.SSLError, OSError) as e:
                self.failed = repr(e)
                break
            if not chunk:
                self.closed = True
                break
            out += chunk
        return bytes(out)

    def start(self):
        """client side: produce the ClientHello"""
        self.feed(b"")

    def write(self, data: bytes):
        self.obj.write(data)

    def take_out(self) -> bytes:
        return self.out.read()

    @property
    def alpn(self) -> str | None:
        return self.obj.selected_alpn_protocol() if self.done else None


_PEER_CERT: tuple[str, str] | None = None


def peer_cert_files(directory: Path) -> tuple[str, str]:
    """A self-signed EC certificate for the harness's TLS servers (mitmproxy runs with ssl_insecure)."""
    global _PEER_CERT
    if _PEER_CERT and os.path.exists(_PEER_CERT[0]):
        return _PEER_CERT
    import datetime

    from cryptography import x509
    from cryptography.hazmat.primitives import hashes, serialization
    from cryptography.hazmat.primitives.asymmetric import ec
    from cryptography.x509.oid import NameOID

    key = ec.generate_private_key(ec.SECP256R1())
    name = x509.Name([x509.NameAttribute(NameOID.COMMON_NAME, "verif-peer")])
    now = datetime.datetime(2024, 1, 1)
    cert = (x509.CertificateBuilder().subject_name(name).issuer_name(name).public_key(key.public_key())
            .serial_number(1001).not_valid_before(now).not_valid_after(now + datetime.timedelta(days=36500))
            .add_extension(x509.SubjectAlternativeName([x509.DNSName("*")]), critical=False)
            .sign(key, hashes.SHA256()))
    directory.mkdir(parents=True, exist_ok=True)
    cf, kf = directory / "peer.crt", directory / "peer.key"
    cf.write_bytes(cert.public_bytes(serialization.Encoding.PEM))
    kf.write_bytes(key.private_bytes(serialization.Encoding.PEM, serialization.PrivateFormat.TraditionalOpenSSL,
                                     serialization.NoEncryption()))
    _PEER_CERT = (str(cf), str(kf))
    return _PEER_CERT


def server_sslctx(directory: Path, alpn: list[str] | None) -> ssl.SSLContext:
    cf, kf = peer_cert_files(directory)
    c = ssl.SSLContext(ssl.PROTOCOL_TLS_SERVER)
    c.load_cert_chain(cf, kf)
    if alpn:
        c.set_alpn_protocols(alpn)
    return c


def client_sslctx(alpn: list[str] | None) -> ssl.SSLContext:
    c = ssl.SSLContext(ssl.PROTOCOL_TLS_CLIENT)
    c.check_hostname = False
    c.verify_mode = ssl.CERT_NONE
    if alpn:
        c.set_alpn_protocols(alpn)
    return c


# ------------------------------------------------------------------------------------------------
# upstream peers


@dataclass
class ReqObs:
    """A request head read by an upstream peer, with the route it physically took."""
    ep: "Endpoint"
    level: "Level"
    method: str
    target: str  # request-target (HTTP/1) or :path (HTTP/2)
    scheme: str  # "" for HTTP/1 origin-form; URL scheme of an absolute-form target; :scheme for HTTP/2
    authority: str  # authority of an absolute-form target / :authority; "" otherwise
    host_header: str
    fields: list
    raw: bytes
    proto: str  # "h1" | "h2"
    stream: int = 0
    live: bool = True  # False: mitmproxy wrote this to a connection that is not (or no longer) connected
    n: int = 0

    def route(self) -> dict:
        """tcp address, TLS on the TCP connection, CONNECT target (or None), TLS inside the tunnel"""
        chain = self.level.chain()
        r = {"tcp": self.ep.addr, "tls0": False, "connect": None, "tls1": False, "depth": 0}
        seen_tunnel = False
        for lv in chain:
            if lv.kind == "tls":
                if seen_tunnel:
                    r["tls1"] = True
                else:
                    r["tls0"] = True
            elif lv.kind == "tunnel":
                if seen_tunnel:
                    r["depth"] += 1  # nested tunnels: not expected
                seen_tunnel = True
                r["connect"] = lv.info
        return r


class Level:
    """One nesting level of an upstream peer: bytes arrive via on_bytes (already decoded by the parent level)."""

    def __init__(self, ep: "Endpoint", parent: "Level | None", kind: str, info: Any = None):
        self.ep, self.parent, self.kind, self.info = ep, parent, kind, info
        self.app: Any = None
        self.seen = bytearray()  # every byte that arrived at this level (for substring scans)
        self.tls: TlsEnd | None = None  # for kind == "tls": the end that produced this level's plaintext

    def chain(self):
        out, lv = [], self
        while lv is not None:
            out.append(lv)
            lv = lv.parent
        return list(reversed(out))

    def depth_name(self) -> str:
        return "/".join(lv.kind for lv in self.chain())

    def on_bytes(self, data: bytes):
        if not data:
            return
        self.seen += data
        if self.app is None:
            self.app = self.ep.sniff(self, bytes(self.seen))
            if self.app is None:
                return  # need more bytes to decide
            data = bytes(self.seen)
        self.app.on_bytes(data)

    def write(self, data: bytes):
        """send bytes from this level towards mitmproxy"""
        if not data:
            return
        if self.kind == "tls":
            assert self.tls is not None and self.parent is not None
            self.tls.write(data)
            self.parent.write(self.tls.take_out())
        elif self.parent is None:
            self.ep.outbox.append(data)
        else:
            self.parent.write(data)


class TlsApp:
    def __init__(self, level: Level, policy: str, alpn: list[str] | None):
        self.level = level
        self.policy = policy  # ok | garbage | close
        self.end = TlsEnd(level.ep.sim.env.server_ctx(alpn), server_side=True)
        self.child = Level(level.ep, level, "tls")
        self.child.tls = self.end
        self.reported = False

    def on_bytes(self, data: bytes):
        ep = self.level.ep
        if self.policy == "garbage":
            if not self.reported:
                self.reported = True
                self.level.write(b"HTTP/1.1 400 Bad Request\r\nContent-Length: 0\r\n\r\n")
                ep.note("tls_refused", self.level)
            return
        if self.policy == "close":
            if not self.reported:
                self.reported = True
                ep.note("tls_refused", self.level)
                ep.want_close = True
            return
        plain = self.end.feed(data)
        out = self.end.take_out()
        if out:
            self.level.write(out)
        if self.end.done and not self.reported:
            self.reported = True
            self.child.info = self.end.alpn
            ep.note("tls_ok", self.level)
        if plain:
            self.child.on_bytes(plain)


class Http1App:
    def __init__(self, level: Level):
        self.level = level
        self.reader = RefHttp1()
        self.tunnel: Level | None = None
        self.pending: list[ReqObs] = []  # requests not yet answered

    def on_bytes(self, data: bytes):
        if self.tunnel is not None:
            self.tunnel.on_bytes(data)
            return
        ep = self.level.ep
        heads = self.reader.feed(data)
        for h in heads:
            scheme, authority = "", ""
            m = re.match(r"^([A-Za-z][A-Za-z0-9+.\-]*)://([^/?#]*)", h.target)
            if m:
                scheme, authority = m.group(1).lower(), m.group(2)
            obs = ReqObs(ep=ep, level=self.level, method=h.method, target=h.target, scheme=scheme, authority=authority,
                         host_header=h.get("host", "") or "", fields=h.fields, raw=h.raw, proto="h1", live=ep.live)
            if h.method == "CONNECT":
                verdict = ep.sim.on_connect(obs)  # "ok" | "refuse" | "close"
                if verdict == "ok":
                    self.level.write(b"HTTP/1.1 200 Connection established\r\n\r\n")
                    self.tunnel = Level(ep, self.level, "tunnel", info=h.target)
                    rest = bytes(self.reader.buf)
                    self.reader.buf.clear()
                    if rest:
                        self.tunnel.on_bytes(rest)
                    return
                elif verdict == "refuse":
                    ep.note("connect_refused", self.level)
                    self.level.write(b"HTTP/1.1 407 Proxy Authentication Required\r\nContent-Length: 0\r\n\r\n")
                    self.reader.resume()
                else:
                    ep.want_close = True
                    self.reader.resume()
            else:
                self.pending.append(obs)
                ep.sim.on_request(obs)
        if self.reader.garbage:
            ep.note("garbage", self.level)

    def respond(self, obs: ReqObs, status: int = 200, body: bytes = b"", close: bool = False):
        if obs in self.pending:
            self.pending.remove(obs)
        hdr = f"HTTP/1.1 {status} OK\r\nContent-Length: {len(body)}\r\n"
        if close:
            hdr += "Connection: close\r\n"
        self.level.write(hdr.encode() + b"\r\n" + body)


class H2App:
    def __init__(self, level: Level):
        import h2.config
        import h2.connection

        self.level = level
        self.conn = h2.connection.H2Connection(h2.config.H2Configuration(client_side=False, header_encoding="latin-1",
                                                                         validate_inbound_headers=False))
        self.conn.initiate_connection()
        self.level.write(self.conn.data_to_send())
        self.pending: list[ReqObs] = []

    def on_bytes(self, data: bytes):
        import h2.events
        import h2.exceptions

        ep = self.level.ep
        try:
            evs = self.conn.receive_data(data)
        except h2.exceptions.ProtocolError:
            ep.note("garbage", self.level)
            return
        for e in evs:
            if isinstance(e, h2.events.RequestReceived):
                hd = [(k if isinstance(k, str) else k.decode("latin-1"), v if isinstance(v, str) else v.decode("latin-1"))
                      for k, v in e.headers]
                d = dict(hd)
                obs = ReqObs(ep=ep, level=self.level, method=d.get(":method", ""), target=d.get(":path", ""),
                             scheme=d.get(":scheme", ""), authority=d.get(":authority", ""),
                             host_header=d.get("host", ""), fields=[(k.lower(), v) for k, v in hd if not k.startswith(":")],
                             raw=repr(hd).encode("latin-1", "replace"), proto="h2", stream=e.stream_id, live=ep.live)
                self.pending.append(obs)
                ep.sim.on_request(obs)
        out = self.conn.data_to_send()
        if out:
            self.level.write(out)

    def respond(self, obs: ReqObs, status: int = 200, body: bytes = b"", close: bool = False):
        if obs in self.pending:
            self.pending.remove(obs)
        try:
            self.conn.send_headers(obs.stream, [(":status", str(status)), ("content-length", str(len(body)))],
                                   end_stream=not body)
            if body:
                self.conn.send_data(obs.stream, body, end_stream=True)
        except Exception:
            self.level.ep.note("respond_failed", self.level)
        self.level.write(self.conn.data_to_send())


class Endpoint:
    """The harness's peer for one physical (TCP/UDP) connection opened by mitmproxy."""

    def __init__(self, sim: "Sim", conn, cid: int, policy: dict):
        self.sim, self.conn, self.cid = sim, conn, cid
        self.addr = tuple(conn.address) if conn.address else None
        self.transport = conn.transport_protocol
        # {"tls0"|"tls1": "ok"|"garbage"|"close" (TLS on the TCP connection / inside a CONNECT tunnel),
        #  "alpn0"|"alpn1": [protocols the TLS server offers] or a function of the level, "connect": "ok"|"refuse"|"close"}
        self.policy = policy
        self.root = Level(self, None, "root")
        self.dead = Level(self, None, "root")  # bytes written while the connection is not connected
        self.outbox: list[bytes] = []
        self.notes: list[tuple[str, str]] = []
        self.want_close = False
        self.live = True
        self.n_tls = 0

    def note(self, what: str, level: Level):
        self.notes.append((what, level.depth_name()))
        self.sim.on_note(self, what, level)

    def sniff(self, level: Level, first: bytes):
        if first[:1] == b"\x16":
            if len(first) < 3:
                return None
            inner = any(lv.kind == "tunnel" for lv in level.chain())
            pol = self.policy.get("tls1" if inner else "tls0", "ok")
            alpn = self.policy.get("alpn1" if inner else "alpn0")
            if callable(alpn):
                alpn = alpn(level)
            self.n_tls += 1
            return TlsApp(level, pol, alpn)
        pre = b"PRI * HTTP/2.0\r\n\r\nSM\r\n\r\n"
        if first.startswith(pre[: len(first)]) and len(first) < len(pre):
            return None
        if first.startswith(pre):
            return H2App(level)
        return Http1App(level)

    def on_send(self, data: bytes, live: bool):
        self.live = live
        if live:
            self.root.on_bytes(data)
        else:
            saved, self.outbox = self.outbox, []
            self.dead.on_bytes(data)
            self.outbox = saved  # nobody hears replies on a dead connection


# ------------------------------------------------------------------------------------------------
# client peer


class ClientPeer:
    """The harness's client: raw bytes, optionally through TLS (possibly nested: TLS to a secure web proxy, CONNECT,
    TLS to the origin), HTTP/1 or HTTP/2."""

    def __init__(self, sim: "Sim"):
        self.sim = sim
        self.tls_stack: list[TlsEnd] = []  # outermost first
        self.rx = bytearray()  # plaintext received at the innermost level
        self.rx_raw = bytearray()
        self.reader = RefHttp1(responses=True)
        self.responses: list[Head] = []
        self.h2 = None
        self.h2_events: list = []
        self.closed = False

    @property
    def tls(self) -> TlsEnd | None:
        """the innermost TLS end"""
        return self.tls_stack[-1] if self.tls_stack else None

    # outgoing
    def _send_below(self, data: bytes, depth: int):
        """send bytes produced at TLS nesting depth `depth` (0 = raw socket) through the layers below"""
        for t in reversed(self.tls_stack[:depth]):
            t.write(data)
            data = t.take_out()
        self.sim.client_raw(data)

    def send(self, data: bytes):
        self._send_below(data, len(self.tls_stack))

    def start_tls(self, sni: str | None, alpn: list[str] | None):
        t = TlsEnd(client_sslctx(alpn), server_side=False, server_hostname=sni)
        depth = len(self.tls_stack)
        self.tls_stack.append(t)
        self.reader = RefHttp1(responses=True)
        t.start()
        self._send_below(t.take_out(), depth)
        return t.done

    def start_h2(self):
        import h2.config
        import h2.connection

        self.h2 = h2.connection.H2Connection(h2.config.H2Configuration(client_side=True, header_encoding="latin-1"))
        self.h2.initiate_connection()
        self.send(self.h2.data_to_send())

    def h2_request(self, stream_id: int, headers: list, end_stream: bool = True):
        self.h2.send_headers(stream_id, headers, end_stream=end_stream)
        self.send(self.h2.data_to_send())

    def request(self, method: str, target: str, fields: list[tuple[str, str]], body: bytes = b""):
        lines = [f"{method} {target} HTTP/1.1"] + [f"{k}: {v}" for k, v in fields]
        if body:
            lines.append(f"Content-Length: {len(body)}")
        self.reader.head_request_methods.append(method)
        self.send(("\r\n".join(lines) + "\r\n\r\n").encode("latin-1") + body)

    # incoming
    def on_bytes(self, data: bytes):
        self.rx_raw += data
        for depth, t in enumerate(list(self.tls_stack)):
            plain = t.feed(data)
            out = t.take_out()
            if out:
                self._send_below(out, depth)
            data = plain
            if not data:
                return
        if not data:
            return
        self.rx += data
        if self.h2 is not None:
            import h2.exceptions

            try:
                evs = self.h2.receive_data(data)
            except h2.exceptions.ProtocolError:
                evs = []
            self.h2_events += evs
            out = self.h2.data_to_send()
            if out:
                self.send(out)
            for e in evs:
                if self.sim.cb_client:
                    self.sim.cb_client("h2", e)
        else:
            self.on_plain(data)

    def after_connect_ok(self):
        """switch the response reader to the tunnel's inner protocol"""
        rest = bytes(self.reader.buf)
        self.reader = RefHttp1(responses=True)
        if rest:
            self.on_plain(rest)

    def on_plain(self, data: bytes):
        for h in self.reader.feed(data):
            self.responses.append(h)
            if self.sim.cb_client:
                self.sim.cb_client("h1", h)


# ------------------------------------------------------------------------------------------------
# environment shared by all scenarios of a process


class SimEnv:
    def __init__(self, scratch: Path, extra_addons: tuple = ()):
        from mitmproxy.addons.next_layer import NextLayer
        from mitmproxy.addons.proxyserver import Proxyserver
        from mitmproxy.addons.tlsconfig import TlsConfig
        from mitmproxy.addons.upstream_auth import UpstreamAuth
        from mitmproxy.test import taddons

        self.scratch = Path(scratch)
        self.scratch.mkdir(parents=True, exist_ok=True)
        self.confdir = self.scratch / "confdir"
        self.confdir.mkdir(exist_ok=True)
        self.proxyserver, self.next_layer, self.tlsconfig, self.upstream_auth = (
            Proxyserver(), NextLayer(), TlsConfig(), UpstreamAuth())
        self.tctx = taddons.context(self.proxyserver, self.next_layer, self.tlsconfig, self.upstream_auth, *extra_addons)
        self.options = self.tctx.options
        self.master = self.tctx.master
        self.base = dict(confdir=str(self.confdir), ssl_insecure=True, connection_strategy="lazy")
        self.options.update(**self.base)
        self._sctx: dict = {}

    def server_ctx(self, alpn):
        key = tuple(alpn or ())
        c = self._sctx.get(key)
        if c is None:
            c = self._sctx[key] = server_sslctx(self.scratch / "peer", list(alpn) if alpn else None)
        return c

    def configure(self, **opts):
        """reset every option to the harness defaults, then apply the scenario's options"""
        want = dict(self.base)
        want.update(opts)
        changed = {}
        for k in self.options.keys():
            v = want[k] if k in want else self.options.default(k)
            if getattr(self.options, k) != v:
                changed[k] = v
        if changed:
            self.options.update(**changed)

    def run_hook(self, hook, extra: Callable | None = None):
        """what ConnectionHandler.handle_hook does, synchronously: every addon in chain order, then the harness policy"""
        am = self.master.addons
        for a in am.chain:
            am.invoke_addon_sync(a, hook)
        if extra is not None:
            extra(hook)

    def close(self):
        loop = self.master.event_loop
        if not loop.is_closed():
            loop.close()


# ------------------------------------------------------------------------------------------------


class Sim:
    """One client connection handled by the real layer stack of `mode`."""

    def __init__(self, env: SimEnv, mode: str, *, server_address=None, ep_policy: Callable | None = None,
                 on_hook: Callable | None = None, connect_policy: Callable | None = None):
        from mitmproxy.proxy import context, mode_servers
        from vf import sansio

        self.env = env
        self.mode = mode
        self.client_conn = sansio.make_client(mode=mode)
        self.ctx = context.Context(self.client_conn, env.options)
        if server_address is not None:
            # what TransparentInstance / WireGuard / TUN do with the original destination
            self.ctx.server.address = tuple(server_address)
        inst = mode_servers.ServerInstance.make(mode, None)  # type: ignore
        self.top = inst.make_top_layer(self.ctx)
        self.drv = sansio.Driver(self.ctx, self.top)
        self.client = ClientPeer(self)
        self.endpoints: dict[int, Endpoint] = {}  # id(conn) -> endpoint
        self.ep_list: list[Endpoint] = []
        self.ep_policy = ep_policy or (lambda conn, cid: {})
        self.user_hook = on_hook
        self.connect_policy = connect_policy or (lambda obs: "ok")
        self.requests: list[ReqObs] = []
        self.events: list[dict] = []  # the property's trace is built by the caller's callbacks
        self.cb_request: Callable | None = None
        self.cb_note: Callable | None = None
        self.cb_open: Callable | None = None
        self.cb_hook_seen: Callable | None = None
        self.cb_client: Callable | None = None  # (kind "h1"|"h2", response head / h2 event) seen by the client peer
        self._log_pos = 0
        self._client_in: list[bytes] = []
        self.crashed = None

    # --- callbacks from peers -----------------------------------------------------------------------
    def on_request(self, obs: ReqObs):
        obs.n = len(self.requests) + 1
        self.requests.append(obs)
        if self.cb_request:
            self.cb_request(obs)

    def on_connect(self, obs: ReqObs) -> str:
        obs.n = -1
        v = self.connect_policy(obs)
        if self.cb_request:
            self.cb_request(obs, connect_verdict=v)
        return v

    def on_note(self, ep, what, level):
        if self.cb_note:
            self.cb_note(ep, what, level)

    def client_raw(self, data: bytes):
        if data:
            self._client_in.append(data)

    # --- the pump -----------------------------------------------------------------------------------
    def _dispatch_log(self):
        """route what mitmproxy just did (new Driver.log entries) to the peers"""
        log = self.drv.log
        while self._log_pos < len(log):
            e = log[self._log_pos]
            self._log_pos += 1
            t = e["t"]
            if t == "open":
                conn = e["cmd"].connection
                cid = len(self.ep_list) + 1
                ep = Endpoint(self, conn, cid, self.ep_policy(conn, cid))
                # a Server object may be opened again after a failure: the new attempt is a new physical connection
                self.endpoints[id(conn)] = ep
                self.ep_list.append(ep)
                if self.cb_open:
                    self.cb_open(ep, e["cmd"])
            elif t in ("send", "ignored"):
                cmd = e["cmd"]
                from mitmproxy.proxy import commands

                if not isinstance(cmd, commands.SendData):
                    continue
                conn = cmd.connection
                if conn is self.client_conn:
                    if t == "send":
                        self.client.on_bytes(bytes(cmd.data))
                    continue
                ep = self.endpoints.get(id(conn))
                if ep is None:
                    # data for a connection that was never opened: give it a dead endpoint so that it is observed
                    cid = len(self.ep_list) + 1
                    ep = Endpoint(self, conn, cid, {})
                    ep.live = False
                    self.endpoints[id(conn)] = ep
                    self.ep_list.append(ep)
                    if self.cb_open:
                        self.cb_open(ep, None)
                ep.on_send(bytes(cmd.data), live=(t == "send"))

    def _run_hooks(self) -> bool:
        did = False
        while True:
            hs = self.drv.hooks_pending()
            if not hs:
                return did
            h = hs[0]
            if self.cb_hook_seen:
                self.cb_hook_seen(h)
            self.env.run_hook(h, self.user_hook)
            self.drv.complete(h)
            self._dispatch_log()
            did = True

    def settle(self, limit: int = 400):
        """run hooks and exchange the peers' automatic replies (TLS handshakes, CONNECT replies) until quiescent;
        OpenConnection commands stay pending (the scenario decides their outcome)."""
        for _ in range(limit):
            self._dispatch_log()
            progressed = self._run_hooks()
            if self._client_in:
                data = self._client_in.pop(0)
                if self.client_conn in self.drv.transports:
                    self.drv.data(self.client_conn, data)
                progressed = True
            else:
                for ep in self.ep_list:
                    if ep.outbox:
                        data = ep.outbox.pop(0)
                        if ep.conn in self.drv.transports and ep is self.endpoints.get(id(ep.conn)):
                            self.drv.data(ep.conn, data)
                        progressed = True
                        break
                    if ep.want_close:
                        ep.want_close = False
                        if ep.conn in self.drv.transports and ep is self.endpoints.get(id(ep.conn)):
                            self.server_close(ep, settle=False)
                        progressed = True
                        break
            if self.drv.crashed and not self.crashed:
                self.crashed = self.drv.crashed
            if not progressed:
                self._dispatch_log()
                if not (self.drv.hooks_pending() or self._client_in or any(ep.outbox or ep.want_close for ep in self.ep_list)):
                    return
        raise RuntimeError("proxysim: no quiescence")

    # --- environment actions ------------------------------------------------------------------------
    def start(self):
        self.drv.start()
        self.settle()

    def opens_pending(self):
        return self.drv.opens_pending()

    def open_done(self, cmd, err: str | None = None):
        self.drv.complete(cmd, err)
        self.settle()

    def server_close(self, ep: Endpoint, settle: bool = True):
        self.drv.peer_close(ep.conn)
        if settle:
            self.settle()

    def client_close(self):
        self.drv.peer_close(self.client_conn)
        self.client.closed = True
        self.settle()

    def respond(self, obs: ReqObs, status: int = 200, body: bytes = b"", close: bool = False):
        obs.level.app.respond(obs, status, body, close)
        self.settle()
        if close and obs.proto == "h1" and obs.ep.conn in self.drv.transports:
            self.server_close(obs.ep)

    def wakeups(self):
        from mitmproxy.proxy import commands

        return [c for c in self.drv.pending if isinstance(c, commands.RequestWakeup)]
