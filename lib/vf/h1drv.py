"""HTTP/1 proxy harness shared by C01 and C02: the real stack
    HttpLayer(regular) -> Http1Server -> HttpStream -> HttpClient/Http1Client
driven sans-io (lib/vf/sansio.Driver), with
  * a scripted client (byte segments, close),
  * a scripted origin-server peer that answers every request it can read (with the reference parser) from the bytes
    mitmproxy wrote to it,
  * a scripted addon (edits applied to the flow while a hook is pending),
and a chronological log of what the code did, in command order:
    ("hook", name, f, snapshot)      snapshot of the recorded flow when the hook completes (after the addon edit)
    ("send", conn, bytes) / ("send_ignored", conn, bytes) / ("close", conn, half) / ("open", conn)
    ("in", conn, bytes) / ("closed_in", conn)
    ("raised", exception class name)
Nothing here evaluates a property; the property modules project this log to event records.
"""
from __future__ import annotations

from . import h1ref, sansio


class Intern:
    """bytes-like values -> small ints in first-seen order (0 is reserved for the empty value)."""

    def __init__(self):
        self.t: dict = {}

    def __call__(self, v) -> int:
        if not v:
            return 0
        i = self.t.get(v)
        if i is None:
            i = len(self.t) + 1
            self.t[v] = i
        return i


def recorded_target(req) -> bytes:
    """The request-target form (RFC 9112 section 3.2) that the recorded first-line components denote."""
    d = req.data
    if d.method.upper() == b"CONNECT":
        return bytes(d.authority)
    if d.authority:
        return bytes(d.scheme) + b"://" + bytes(d.authority) + bytes(d.path)
    return bytes(d.path)


def snap_request(req) -> dict:
    return {"method": bytes(req.data.method), "target": recorded_target(req),
            "version": bytes(req.data.http_version),
            "fields": h1ref.norm_fields(req.headers.fields), "body": bytes(req.data.content or b""),
            "has_content": req.data.content is not None}


def snap_response(resp) -> dict:
    return {"status": int(resp.data.status_code), "version": bytes(resp.data.http_version),
            "fields": h1ref.norm_fields(resp.headers.fields), "body": bytes(resp.data.content or b""),
            "has_content": resp.data.content is not None}


def apply_edit(flow, hook: str, edit: str, salt: int):
    """The scripted addon.  Edits go through the public message API only (no hand-written framing headers)."""
    if not edit or edit == "none":
        return
    if hook == "requestheaders":
        if edit == "hdr":
            flow.request.headers["X-Added"] = "a%d" % salt
            flow.request.headers.pop("X-Drop", None)
        elif edit == "stream":
            flow.request.stream = True
    elif hook == "request":
        if edit == "body":
            flow.request.content = b"EDITED-%d-" % salt + b"z" * (salt % 7)
        elif edit == "empty":
            flow.request.content = b""
        elif edit == "line":
            if flow.request.method == "POST":
                flow.request.method = "PUT"
            flow.request.path = "/edited/%d" % salt
    elif hook == "responseheaders":
        if edit == "hdr":
            flow.response.headers["X-Added"] = "r%d" % salt
            flow.response.headers.pop("X-Drop", None)
        elif edit == "stream":
            flow.response.stream = True
    elif hook == "response":
        if edit == "body":
            flow.response.content = b"REDITED-%d-" % salt + b"y" * (salt % 5)
        elif edit == "empty":
            flow.response.content = b""
        elif edit == "status":
            if flow.response.status_code == 200:
                flow.response.status_code = 203


class _Driver(sansio.Driver):
    def __init__(self, run, *a, **kw):
        super().__init__(*a, **kw)
        self.run = run

    def _apply(self, cmd):
        super()._apply(cmd)
        self.run._observe(self.log[-1])


class H1Run:
    """One connection of a client to the proxy.  `edits`: {(X-Id of the flow's request, hook name): edit name}."""

    def __init__(self, *, edits=None, options=None, on_event=None):
        from mitmproxy.proxy.layers import http

        self.opts = sansio.make_options(**(options or {}))
        self.ctx = sansio.make_context(self.opts)
        self.top = http.HttpLayer(self.ctx, http.HTTPMode.regular)
        self.d = _Driver(self, self.ctx, self.top)
        self.edits = edits or {}
        self.events: list = []
        self.on_event = on_event
        self.flows: dict = {}  # id(flow) -> index
        self.tags: dict = {}  # flow index -> X-Id of its request when first seen
        self._keep: list = []
        self.sent: dict = {}  # conn -> bytearray (only bytes really written)
        self.closed_by_proxy: dict = {}  # conn -> "full" | "half"
        self.peer_closed: set = set()
        self.dead = False
        self._guard(self.d.start)

    # ---------------------------------------------------------------------------------------------------
    def _emit(self, *ev):
        self.events.append(ev)
        if self.on_event:
            self.on_event(ev)

    def _guard(self, fn, *a):
        if self.dead:
            return
        try:
            fn(*a)
        except Exception as e:  # the layer crashed: an observation, not a harness failure
            self.dead = True
            self._emit("raised", type(e).__name__)

    def _observe(self, rec):
        t = rec["t"]
        if t == "send":
            self.sent.setdefault(rec["c"], bytearray()).extend(rec["data"])
            self._emit("send", rec["c"], rec["data"])
        elif t == "ignored":
            from mitmproxy.proxy import commands

            if isinstance(rec["cmd"], commands.SendData):
                self._emit("send_ignored", rec["c"], bytes(rec["cmd"].data))
        elif t == "close":
            prev = self.closed_by_proxy.get(rec["c"])
            self.closed_by_proxy[rec["c"]] = "half" if rec["half"] and prev != "full" else "full"
            self._emit("close", rec["c"], bool(rec["half"]))
        elif t == "open":
            self._emit("open", rec["c"])
        elif t == "log" and self.d.crashed:
            pass

    def flow_index(self, flow) -> int:
        i = self.flows.get(id(flow))
        if i is None:
            i = len(self.flows) + 1
            self.flows[id(flow)] = i
            self._keep.append(flow)
        return i

    # ---------------------------------------------------------------------------------------------------
    def settle(self):
        """Complete everything the environment completes synchronously: hooks (addon runs, then HookCompleted) and
        connection attempts (always succeed).  Loops until nothing is pending."""
        from mitmproxy.proxy import commands

        while not self.dead and self.d.pending:
            cmd = self.d.pending[0]
            if isinstance(cmd, commands.StartHook):
                (data,) = cmd.args()[:1] or (None,)
                f = self.flow_index(data)
                name = cmd.name
                pre = {}
                if name == "requestheaders":
                    pre["expect"] = data.request.headers.get("expect", "").lower() == "100-continue"
                try:
                    tag = self.tags.get(f)
                    if tag is None:
                        v = data.request.headers.get("x-id", "") if data.request is not None else ""
                        tag = self.tags[f] = int(v) if v.isdigit() and len(v) < 6 else 0
                    apply_edit(data, name, self.edits.get((tag, name), "none"), tag)
                except Exception as e:  # an edit the message API refuses: recorded, the hook still completes
                    self._emit("edit_failed", name, f, type(e).__name__)
                snap = dict(pre)
                if data.request is not None:
                    snap["request"] = snap_request(data.request)
                if data.response is not None:
                    snap["response"] = snap_response(data.response)
                snap["error"] = data.error is not None
                self._emit("hook", name, f, snap)
                self._guard(self.d.complete, cmd)
            elif isinstance(cmd, commands.OpenConnection):
                self._guard(self.d.complete, cmd)
            else:  # RequestWakeup etc.: not used by the HTTP/1 stack
                self.d.pending.pop(0)

    def client_data(self, data: bytes):
        if self.dead or self.closed_by_proxy.get("client") == "full" or "client" in self.peer_closed:
            return
        self._emit("in", "client", data)
        self._guard(self.d.data, "client", data)
        self.settle()

    def server_data(self, conn: str, data: bytes):
        if self.dead or conn in self.peer_closed or self.closed_by_proxy.get(conn) == "full":
            return  # the proxy no longer reads from this connection
        self._emit("in", conn, data)
        self._guard(self.d.data, conn, data)
        self.settle()

    def peer_close(self, conn: str):
        if self.dead or conn in self.peer_closed:
            return
        self.peer_closed.add(conn)
        if self.closed_by_proxy.get(conn) == "full":
            return  # the proxy closed this connection before: it does not see the peer's close any more
        self._emit("closed_in", conn)
        self._guard(self.d.peer_close, conn)
        self.settle()

    # ---------------------------------------------------------------------------------------------------
    def server_conns(self) -> list:
        return sorted((c for c in self.sent if c.startswith("server")), key=lambda s: int(s[6:]))

    def writable(self, conn: str) -> bool:
        return conn not in self.closed_by_proxy
