"""Fake network for asyncio code under the virtual-time loop (C09, C53).

`FakeNet.open_connection` replaces `asyncio.open_connection` while `FakeNet.patched()` is active.  A call registers a
pending `Attempt` and suspends until the scenario resolves it (`attempt.succeed()`, `attempt.refuse()`); a cancelled
call never creates a socket (asyncio's own create_connection closes its socket when it is cancelled).  A successful
attempt yields a `FakeSock`: a real `asyncio.StreamReader` (fed by the scenario: `feed`, `eof`, `read_error`) and a
recording `FakeWriter` (write / write_eof / close / is_closing / drain / get_extra_info) whose drain can be paused
(`pause()` / `resume()`) or broken (`break_write()`: drain raises OSError, as a reset peer does).

Everything the fake observes is reported through `net.log(record_dict)`; the property harness decides what to keep.
"""
from __future__ import annotations

import asyncio
import contextlib


class FakeWriter:
    def __init__(self, sock: "FakeSock"):
        self.sock = sock
        self.data = bytearray()
        self.chunks: list[bytes] = []
        self.closed = False
        self.eof_written = False
        self.broken: OSError | None = None
        self._paused: asyncio.Future | None = None

    # --- API used by mitmproxy.proxy.server ---
    def write(self, data: bytes) -> None:
        if self.closed or self.broken:
            return  # real transports drop writes on a closing/lost connection (and log after a few tries)
        self.data.extend(data)
        self.chunks.append(bytes(data))
        self.sock.net.log({"k": "sock_write", "s": self.sock.id, "n": len(data)})

    def write_eof(self) -> None:
        if self.broken:
            raise self.broken
        self.eof_written = True
        self.sock.net.log({"k": "sock_eof", "s": self.sock.id})

    def close(self) -> None:
        if not self.closed:
            self.closed = True
            self.sock.net.log({"k": "sock_close", "s": self.sock.id})
            if self._paused is not None and not self._paused.done():
                self._paused.set_result(None)

    def is_closing(self) -> bool:
        return self.closed

    async def drain(self) -> None:
        if self.broken:
            raise self.broken
        if self.closed:
            await asyncio.sleep(0)  # StreamWriter.drain yields once on a closing transport
            return
        if self._paused is not None and not self._paused.done():
            await self._paused
            if self.broken:
                raise self.broken

    async def wait_closed(self) -> None:
        return

    def get_extra_info(self, name, default=None):
        return {"peername": self.sock.peername, "sockname": self.sock.sockname}.get(name, default)

    # --- scenario side ---
    def pause(self):
        if self._paused is None or self._paused.done():
            self._paused = asyncio.get_running_loop().create_future()

    def resume(self):
        if self._paused is not None and not self._paused.done():
            self._paused.set_result(None)

    def break_write(self, msg="Connection lost"):
        self.broken = ConnectionResetError(msg)
        self.resume()


class FakeSock:
    def __init__(self, net: "FakeNet", sid: int, peername, sockname):
        self.net = net
        self.id = sid
        self.peername = peername
        self.sockname = sockname
        self.reader = asyncio.StreamReader()
        self.writer = FakeWriter(self)

    @property
    def open(self) -> bool:
        return not self.writer.closed

    def feed(self, data: bytes):
        self.reader.feed_data(data)

    def eof(self):
        self.reader.feed_eof()

    def read_error(self, msg="Connection reset by peer"):
        self.reader.set_exception(ConnectionResetError(msg))


class Attempt:
    def __init__(self, net: "FakeNet", aid: int, address):
        self.net = net
        self.id = aid
        self.address = address
        self.fut: asyncio.Future = asyncio.get_running_loop().create_future()
        self.state = "pending"  # pending | ok | refused | cancelled
        self.sock: FakeSock | None = None
        self.task = asyncio.current_task()

    @property
    def pending(self):
        return self.state == "pending" and not self.fut.done()

    def succeed(self):
        if not self.fut.done():
            self.fut.set_result(None)

    def refuse(self, msg="Connect call failed"):
        if not self.fut.done():
            self.fut.set_result(ConnectionRefusedError(111, msg))


class FakeNet:
    def __init__(self, log):
        self.log = log
        self.attempts: list[Attempt] = []
        self.socks: list[FakeSock] = []
        self.instant_fail: set = set()  # addresses whose connect fails without ever suspending
        self.on_dial = None  # optional callback(attempt) -> extra fields for the dial record

    def new_sock(self, peername, sockname=("127.0.0.1", 50000)) -> FakeSock:
        s = FakeSock(self, len(self.socks), peername, sockname)
        self.socks.append(s)
        return s

    async def open_connection(self, host=None, port=None, *, local_addr=None, **kw):
        att = Attempt(self, len(self.attempts), (host, port))
        self.attempts.append(att)
        extra = self.on_dial(att) if self.on_dial else {}
        self.log({"k": "dial", "att": att.id, "addr": (host, port), **extra})
        if (host, port) in self.instant_fail:
            att.state = "refused"
            raise ConnectionRefusedError(111, "Connect call failed (immediately)")
        try:
            res = await att.fut
        except asyncio.CancelledError:
            att.state = "cancelled"
            self.log({"k": "dial_cancelled", "att": att.id})
            raise
        if isinstance(res, BaseException):
            att.state = "refused"
            raise res
        att.state = "ok"
        s = self.new_sock((host, port), ("127.0.0.1", 50000 + att.id))
        att.sock = s
        self.log({"k": "sock_open", "s": s.id, "att": att.id, "addr": (host, port)})
        return s.reader, s.writer

    @contextlib.contextmanager
    def patched(self):
        real = asyncio.open_connection
        asyncio.open_connection = self.open_connection  # type: ignore[assignment]
        try:
            yield self
        finally:
            asyncio.open_connection = real  # type: ignore[assignment]

    def open_socks(self):
        return [s for s in self.socks if s.open]
