#!/venv/bin/python
"""Run the repository's pinned baseline (BASELINE.json cmd) with the hook guard OFF and compare with stable_pass.
usage: tools/baseline.py [root]   (default /repo; a scratch worktree for seeded changes)"""
import json, os, subprocess, sys, tempfile, xml.etree.ElementTree as ET

b = json.load(open("/root/.vp/BASELINE.json"))
out = tempfile.mktemp(suffix=".xml", dir="/verif/.scratch" if os.path.isdir("/verif/.scratch") else None)
root = sys.argv[1] if len(sys.argv) > 1 else "/repo"
cmd = b["cmd"].replace("<file>", out).replace("cd /repo", f"cd {root}")
env = dict(os.environ)
env.pop("MITMPROXY_VERIF", None)
p = subprocess.run(cmd, shell=True, env=env, capture_output=True, text=True)
passed = set()
for tc in ET.parse(out).getroot().iter("testcase"):
    if not any(ch.tag in ("failure", "error", "skipped") for ch in tc):
        passed.add(f"{tc.get('classname')}::{tc.get('name')}")
os.unlink(out)
missing = [t for t in b["stable_pass"] if t not in passed]
print(f"baseline: {len(passed)} passed, {len(b['stable_pass'])} expected stable, {len(missing)} stable tests not passing")
for t in missing[:40]:
    print("  NOT-PASSING", t)
sys.exit(1 if missing else 0)
