#!/venv/bin/python
"""Regenerate MANIFEST.json from the property modules (props/Cxx.py: class Check with MANIFEST_* attributes).
Properties without a module are listed under not_applicable with the reason from tools/not_applicable.json."""
import importlib
import json
import os
import sys
from pathlib import Path

V = Path(__file__).resolve().parents[1]
sys.path.insert(0, str(V / "lib"))
sys.path.insert(0, str(V))
sys.path.insert(0, os.environ.get("VERIF_REPO", "/repo"))

props = [json.loads(l) for l in (V / "properties.jsonl").read_text().splitlines() if l.strip()]
na_reasons = json.loads((V / "tools" / "not_applicable.json").read_text()) if (V / "tools" / "not_applicable.json").exists() else {}
accepted = set((V / "tools" / "accepted.txt").read_text().split())
checks, na = [], []
for p in props:
    pid = p["id"]
    if pid not in accepted or not (V / "props" / f"{pid}.py").exists():
        na.append({"property_id": pid, "reason": na_reasons.get(pid, "no TLA+ model/monitor built for this property yet; not claimed")})
        continue
    mod = importlib.import_module(f"props.{pid}")
    c = mod.Check
    checks.append({
        "property_id": pid,
        "quick_cmd": f"./check {pid} --tier quick",
        "thorough_cmd": f"./check {pid} --tier thorough",
        "evidence_file": f"/verif/evidence/{pid}.json",
        "replay_cmd_template": f"./check {pid} --replay {{path}}",
        "engine": "tlc+replay",
        "level_claimed": {
            "category": c.LEVEL,
            "text": getattr(c, "LEVEL_TEXT", "") or (
                f"TLC explores the implementation-shaped model spec/{c.SPEC_DIR}/{c.MODEL}.tla exhaustively within the stated "
                f"constants; its behaviours are replayed on the real code and every observed trace is judged by the TLA+ monitor "
                f"{c.MON}.tla (trace validation), which alone decides the verdict."),
            "design_ref": f"DESIGN.md section 6, {pid}",
        },
        "level_note": getattr(c, "LEVEL_NOTE", "") or "; ".join(c.ASSUMPTIONS) or "see evidence assumptions",
        "technique": getattr(c, "TECHNIQUE", "TLA+ model checked with TLC; model behaviours replayed on the real code; observed traces validated by TLC against the TLA+ monitor"),
    })
# coverage extensions: specs of behaviour outside the 54 given properties (DESIGN 10.5); same pipeline, own evidence dir
extras = []
for x in sorted((V / "props").glob("X*.py")):
    import re as _re
    txt = x.read_text()
    m = _re.search(r'SPEC_DIR\s*=\s*"([^"]+)"', txt)
    extras.append({"name": f"{x.stem} {m.group(1) if m else ''}".strip(), "path": f"/verif/props/{x.name}", "serves_properties": [],
                   "kind_free_text": f"coverage extension (no given property): ./check {x.stem} --tier quick|thorough; same TLC model + replay + trace validation pipeline; evidence in evidence_extra/{x.stem}.json"})
man = {
    "version": 1,
    "setup_cmd": "python3 tools/gen_trace_specs.py",
    "hooks": {
        "guard": "MITMPROXY_VERIF",
        "enable": "MITMPROXY_VERIF=1 (exported by ./check); no source hook is needed so far: observations are taken at the sans-io boundary, through subclass overrides and instance attributes",
        "baseline_off_cmd": "cd /repo && env -u MITMPROXY_VERIF /venv/bin/python -m pytest -ra -q -p no:cacheprovider --timeout=900 --continue-on-collection-errors",
        "source_commits": [],
        "add_only": True,
    },
    "engines": extras + [{"name": "tlc+replay", "path": "/verif/check", "serves_properties": [c["property_id"] for c in checks],
                 "kind_free_text": "TLC 1.8 exhaustive model checking + -simulate; model behaviours replayed in-process on mitmproxy's real classes; trace validation by TLC against Mon_X.tla"}],
    "checks": checks,
    "not_applicable": na,
    "notes": "Verdict rule: VIOLATION only when the TLA+ monitor rejects a trace observed on the real code. exit 2 = machinery failure. See DESIGN.md.",
}
(V / "MANIFEST.json").write_text(json.dumps(man, indent=1) + "\n")
print(f"MANIFEST.json: {len(checks)} checks, {len(na)} not claimed")
