#!/usr/bin/env python3
"""Run every registered check (MANIFEST.json) at a tier, N at a time; print one line per check.
usage: tools/run_all.py [quick|thorough] [-j N] [ids...]"""
import concurrent.futures as cf
import json
import subprocess
import sys
import time
from pathlib import Path

V = Path(__file__).resolve().parents[1]
args = sys.argv[1:]
tier = "quick"
jobs = 4
ids = []
i = 0
while i < len(args):
    if args[i] in ("quick", "thorough"):
        tier = args[i]
    elif args[i] == "-j":
        i += 1
        jobs = int(args[i])
    else:
        ids.append(args[i])
    i += 1
man = json.loads((V / "MANIFEST.json").read_text())
checks = [c for c in man["checks"] if not ids or c["property_id"] in ids]
# coverage extensions (props/X*.py) are not properties of the manifest; run them with "extras" or by id
for x in sorted((V / "props").glob("X*.py")):
    if x.stem in ids or "extras" in ids:
        checks.append({"property_id": x.stem, "quick_cmd": f"./check {x.stem} --tier quick", "thorough_cmd": f"./check {x.stem} --tier thorough"})


def run(c):
    cmd = c["quick_cmd"] if tier == "quick" else c.get("thorough_cmd", c["quick_cmd"])
    t0 = time.time()
    p = subprocess.run(cmd, shell=True, cwd=V, capture_output=True, text=True)
    return c["property_id"], p.returncode, time.time() - t0, p.stdout, p.stderr


bad = 0
with cf.ThreadPoolExecutor(jobs) as ex:
    for pid, rc, dt, out, err in ex.map(run, checks):
        kf = [l for l in out.splitlines() if l.startswith("KNOWN-FINDING")]
        vio = [l for l in out.splitlines() if l.startswith("VIOLATION")]
        last = (out.strip().splitlines() or [""])[-1]
        print(f"{pid} rc={rc} {dt:6.1f}s known={len(kf)} viol={len(vio)} | {last[:150]}")
        if rc != 0:
            bad += 1
            print("   " + "\n   ".join((out + err).strip().splitlines()[-6:]))
print(f"{len(checks)} checks, {bad} non-zero")
sys.exit(1 if bad else 0)
