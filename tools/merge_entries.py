#!/usr/bin/env python3
"""Merge findings_proposed/Cxx.entries.json files (given as args) into known_findings.json (dedup on property+clause+sig)."""
import json, sys
from pathlib import Path
V = Path(__file__).resolve().parents[1]
p = V/"known_findings.json"; d = json.loads(p.read_text())
seen = {(f["property"], f["clause"], json.dumps(f.get("sig"))) for f in d["findings"]}
ids = {f.get("id") for f in d["findings"]}
n = 0
for a in sys.argv[1:]:
    es = json.loads(Path(a).read_text())
    es = es.get("findings", es) if isinstance(es, dict) else es
    for e in es:
        k = (e["property"], e["clause"], json.dumps(e.get("sig")))
        if k in seen:
            continue
        if e.get("id") in ids:
            e["id"] = e["id"] + "-b"
        e.setdefault("what", f"see findings_proposed/{e['property']}.md")
        d["findings"].append(e); seen.add(k); ids.add(e.get("id")); n += 1
p.write_text(json.dumps(d, indent=1))
print(f"merged {n} new entries; total {len(d['findings'])}")
