#!/usr/bin/env python3
"""Write seeded/README.md from seeded/Cxx/{meta.json,r2_meta.json} and seeded/NOTES.json (hand-kept notes)."""
import json
from pathlib import Path
V = Path(__file__).resolve().parents[1]
notes = json.loads((V/"seeded"/"NOTES.json").read_text()) if (V/"seeded"/"NOTES.json").exists() else {}
def row(pid, tag, m):
    c = m.get("confirmation", {})
    det = m.get("detected_final", m.get("detected"))
    ben = "" if "benign_check_rc" not in c else ("not flagged" if c.get("benign_check_rc") == 0 else "FLAGGED")
    return (f"| {pid} | {tag} | {(m.get('summary') or '')[:150].replace('|','/')} | {(m.get('needs') or '')[:110].replace('|','/')} | "
            f"{'yes' if c.get('demo_ok') else '?'} | {'yes' if c.get('suite_ok') else ('flaky test_concurrent only' if c.get('suite') else '-')} | "
            f"{'no' if notes.get(pid + ('/' + tag if tag != 'r1' else ''), '').startswith(('missed', 'masked', 'not reported')) else ('yes' if c.get('detected') else 'no')} | {det} | {'; '.join(x.strip('[]') for x in c.get('clauses', [])[:2])[:140]} | {ben} | {notes.get(pid + ('/' + tag if tag != 'r1' else ''), '')} |")
rows = []
for d in sorted((V/"seeded").glob("C*")):
    for tag, fn in (("r1", "meta.json"), ("r2", "r2_meta.json"), ("r3", "r3_meta.json")):
        f = d/fn
        if f.exists():
            rows.append(row(d.name, tag, json.loads(f.read_text())))
hdr = """# Seeded changes written by independent agents

Three rounds. In each round a fresh agent saw only the text of three properties and a scratch worktree of /repo (nothing
from /verif; in round 2 also a one-line summary of the round-1 seed, to avoid repeats) and wrote, per property, a change
that breaks the property while the repository's suite still passes, with a demonstration; in round 2 also a
behaviour-preserving refactor of the same area (`r2_benign.diff`), which a check must NOT report.
`tools/seeded_eval.py` confirmed every change in a scratch worktree (patch applies to HEAD; the demonstration passes on
the clean tree and fails with the patch; the pinned suite passes with the patch, `tools/baseline.py <worktree>`) and ran
`./check Cxx --tier quick` against the patched tree (and against the benign patch).
Files: `patch.diff`, `demo_test.py`, `meta.json` (round 1) and `r2_patch.diff`, `r2_benign.diff`, `r2_demo_test.py`,
`r2_meta.json` (round 2), `r3_*` likewise (round 3: changes that need a history -- state left by an earlier operation, a
cache, a second exchange, an option combination); `meta.json` holds the agent's description and the `confirmation` record.
Column "reported at first" is the result of the first evaluation; "now" is the state after the checks were strengthened
(column "strengthening"), re-verified with `tools/with_mutant.sh seeded/Cxx/<patch> ./check Cxx --tier quick`.

| id | round | change | needs | demo fails with / passes without | suite passes with patch | reported at first | now | clauses (first two) | benign patch | strengthening after a miss |
|---|---|---|---|---|---|---|---|---|---|---|
"""
(V/"seeded"/"README.md").write_text(hdr + "\n".join(rows) + "\n")
print(len(rows), "rows")
