#!/usr/bin/env python3
"""Confirm and evaluate seeded changes written by independent agents.
usage: tools/seeded_eval.py [--suite] Cxx [Cyy ...]     (inputs: /tmp/seed/out/Cxx/{patch.diff,demo_test.py|demo.py,meta.json})
For each id, in a scratch worktree of /repo (removed afterwards):
  1. the demonstration passes on the clean tree and fails with the patch applied,
  2. (--suite) the repository's pinned test suite still passes with the patch (tools/baseline.py <worktree>),
  3. ./check Cxx --tier quick against the patched tree (VERIF_REPO) -> detected? which clauses?
and writes /verif/seeded/Cxx/{patch.diff, demo*, meta.json}."""
import json, os, re, shutil, subprocess, sys, tempfile
from pathlib import Path
V = Path(__file__).resolve().parents[1]
args = sys.argv[1:]
suite = "--suite" in args
SRC = Path("/tmp/seed/out")
TAG = ""
if "--src" in args:
    i = args.index("--src"); SRC = Path(args[i + 1]); del args[i:i + 2]
if "--tag" in args:
    i = args.index("--tag"); TAG = args[i + 1] + "_"; del args[i:i + 2]
ids = [a for a in args if not a.startswith("--")]

def sh(cmd, cwd=None, timeout=3600, env=None):
    p = subprocess.run(cmd, shell=True, cwd=cwd, capture_output=True, text=True, timeout=timeout, env=env)
    return p.returncode, p.stdout + p.stderr

for pid in ids:
    src = SRC / pid
    patch = src / "patch.diff"
    demo = src / "demo_test.py" if (src / "demo_test.py").exists() else src / "demo.py"
    res = {"property": pid}
    if not patch.exists() or not demo.exists():
        print(pid, "MISSING inputs"); continue
    wt = Path(tempfile.mkdtemp(prefix=f"sv-{pid}-", dir="/tmp"))
    shutil.rmtree(wt)
    rc, out = sh(f"git -C /repo worktree add -q --detach {wt} HEAD")
    try:
        rc, out = sh(f"git apply --check {patch}", cwd=wt)
        res["applies"] = rc == 0
        if rc != 0:
            print(pid, "PATCH DOES NOT APPLY", out[-300:]); continue
        env = dict(os.environ); env.pop("MITMPROXY_VERIF", None); env["PYTHONHASHSEED"] = "0"
        runner = (f"/venv/bin/python -m pytest -q -p no:cacheprovider -x {demo}" if demo.name == "demo_test.py"
                  else f"/venv/bin/python {demo}")
        rc0, o0 = sh(runner, cwd=wt, env=env, timeout=1800)
        sh(f"git apply {patch}", cwd=wt)
        rc1, o1 = sh(runner, cwd=wt, env=env, timeout=1800)
        res["demo_clean_rc"], res["demo_patched_rc"] = rc0, rc1
        res["demo_ok"] = (rc0 == 0 and rc1 != 0)
        res["demo_tail_patched"] = o1.strip().splitlines()[-3:]
        if suite:
            rcs, os_ = sh(f"{V}/tools/baseline.py {wt}", timeout=3600)
            res["suite"] = os_.strip().splitlines()[:6]
            res["suite_ok"] = rcs == 0
        # the check, against the patched tree
        env2 = dict(os.environ); env2["VERIF_REPO"] = str(wt)
        sh("find . -name __pycache__ -prune -exec rm -rf {} +", cwd=wt)
        rcc, oc = sh(f"./check {pid} --tier quick", cwd=V, env=env2, timeout=3600)
        clauses = sorted(set(re.findall(r"clause=(\[[^\]]*\])", oc)))
        res["check_rc"] = rcc
        res["detected"] = rcc == 1
        res["clauses"] = clauses[:8]
        res["check_summary"] = [l for l in oc.splitlines() if l.startswith(pid + " ")][-1:] or oc.strip().splitlines()[-3:]
        # the behaviour-preserving change of the same area (round 2): must NOT be reported
        benign = src / "benign.diff"
        if benign.exists():
            sh("git checkout -q -- . && git clean -fdq", cwd=wt)
            rb, ob = sh(f"git apply {benign}", cwd=wt)
            res["benign_applies"] = rb == 0
            if rb == 0:
                rcd, od = sh(runner, cwd=wt, env=env, timeout=1800)
                res["benign_demo_rc"] = rcd
                sh("find . -name __pycache__ -prune -exec rm -rf {} +", cwd=wt)
                rcb, ocb = sh(f"./check {pid} --tier quick", cwd=V, env=env2, timeout=3600)
                res["benign_check_rc"] = rcb
                res["benign_flagged"] = rcb != 0
                res["benign_clauses"] = sorted(set(re.findall(r"clause=(\[[^\]]*\])", ocb)))[:6]
                res["benign_summary"] = [l for l in ocb.splitlines() if l.startswith(pid + " ")][-1:] or ocb.strip().splitlines()[-3:]
    finally:
        sh(f"git -C /repo worktree remove --force {wt}")
        shutil.rmtree(wt, ignore_errors=True)
    dst = V / "seeded" / pid
    dst.mkdir(parents=True, exist_ok=True)
    shutil.copy(patch, dst / (TAG + "patch.diff"))
    shutil.copy(demo, dst / (TAG + demo.name))
    if (src / "benign.diff").exists():
        shutil.copy(src / "benign.diff", dst / (TAG + "benign.diff"))
    meta = json.loads((src / "meta.json").read_text()) if (src / "meta.json").exists() else {}
    old = {}
    if (dst / (TAG + "meta.json")).exists():
        try:
            old = json.loads((dst / (TAG + "meta.json")).read_text())
        except Exception:
            old = {}
    oc_ = old.get("confirmation", {})
    if "suite_ok" not in res and "suite_ok" in oc_:  # keep the suite result of the first evaluation
        res["suite_ok"], res["suite"] = oc_["suite_ok"], oc_.get("suite")
    meta["first_evaluation"] = old.get("first_evaluation") or ({"detected": old.get("detected"), "clauses": oc_.get("clauses")} if old else None)
    meta["confirmation"] = res
    meta["detected"] = "yes" if res.get("detected") else ("exit2" if res.get("check_rc") == 2 else "no")
    (dst / (TAG + "meta.json")).write_text(json.dumps(meta, indent=1))
    print(pid, "demo_ok=%s" % res.get("demo_ok"), "suite_ok=%s" % res.get("suite_ok", "-"), "check_rc=%s" % res.get("check_rc"), res.get("clauses", [])[:2],
          "benign_rc=%s" % res.get("benign_check_rc", "-"), res.get("benign_clauses", [])[:1])
