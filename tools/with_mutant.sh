#!/bin/sh
# usage: tools/with_mutant.sh <patch.diff> <command...>
# Runs <command> against a scratch copy of /repo's mitmproxy/ package with <patch> applied (VERIF_REPO points
# at the copy; nothing under /repo is touched).  The copy is removed afterwards.  Used by self-tests only.
set -e
PATCH=$(realpath "$1"); shift
D=$(mktemp -d /tmp/vmut-XXXXXX)
trap 'rm -rf "$D"' EXIT
mkdir -p "$D/tree"
cp -r /repo/mitmproxy "$D/tree/mitmproxy"
( cd "$D/tree" && patch -p1 -s --no-backup-if-mismatch < "$PATCH" ) || { echo "PATCH-FAILED $PATCH"; exit 3; }
find "$D/tree" -name __pycache__ -prune -exec rm -rf {} + 2>/dev/null || true
set +e
VERIF_REPO="$D/tree" "$@"
RC=$?
echo "mutant-exit=$RC"
exit $RC
