#!/bin/sh
# usage: tools/selftest.sh Cxx [tier]   -- runs the check on the unchanged tree and on every patch in mutants/Cxx
ID=$1; TIER=${2:-quick}
cd /verif
echo "== base"; ./check $ID --tier $TIER 2>&1 | grep -E "^(VIOLATION|KNOWN-FINDING|MACHINERY|$ID )" | cut -c1-220; echo "base-exit=$?"
for m in mutants/$ID/*.diff; do
  echo "== $m"
  tools/with_mutant.sh $m ./check $ID --tier $TIER 2>&1 | grep -E "^(VIOLATION|MACHINERY|PATCH-FAILED|$ID |mutant-exit)" | cut -c1-200 | awk '/^VIOLATION/{v++; if(v<=2)print; next}{print}'
done
